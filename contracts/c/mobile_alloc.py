"""C20 contract: gsm48_decode_mobile_alloc (src/host/layer23/src/common/sysinfo.c, verbatim extraction).

Post-conditions come from the statement of C20 through spec/ma_decode.py (counting functions rank / hrank / bit);
pre-conditions (buffer sizes) from the two call sites: freq[1024], hopping[64], ma[len], *hopp_len, all separate objects.
NO pre-condition on len: the statement quantifies over bitmap lengths 0..9 and the SI4 call site passes an octet of the
received message, so len ranges over 0..255.

Quantified invariants are handled by hand (engine/cvc/contract.py: forall / instantiate / lemma / skolem_fn), so every
query stays quantifier-free.  Three loops, in source order:
  loop 1 (si4 only)  clear the HOPP flag of freq[0..1024)
  loop 2             f[0..j) = the first j members of the cell allocation in order 1..1023,0
  loop 3             hopping[0..h) = f[i] for the set bits i, stop at the first set bit i >= j
"""
import z3

from engine.cvc.contract import Contract, LoopSpec
from engine.cvc.interp import Engine
from engine.pyvc.values import Unsupported
from spec import ma_decode as S

SYSINFO = "src/host/layer23/src/common/sysinfo.c"
SYSINFO_H = "src/host/layer23/include/osmocom/bb/common/sysinfo.h"
PRELUDE = "layer23_sysinfo_prelude.h"
DEFINES = ((SYSINFO_H, r"FREQ_TYPE_\w+"),)
FUNC = "gsm48_decode_mobile_alloc"


def clr(x, flag):
    """x with the single-bit flag cleared (same shape as the engine's  x & ~flag)"""
    return x - Engine.and_const(x, flag)


def sel(arr, i):
    return z3.Select(arr, i)


def mono_rank(m, serv, p, q):
    """lemma (proved by induction in props/cparts/C20.py): 0 <= p <= q  ==>  rank(p) <= rank(q)"""
    return z3.Implies(z3.And(0 <= p, p <= q), S.rank(m, serv, p) <= S.rank(m, serv, q))


def mono_hrank(ma, ln, p, q):
    return z3.Implies(z3.And(0 <= p, p <= q), S.hrank(ma, ln, p) <= S.hrank(ma, ln, q))


class DecodeMobileAlloc(Contract):
    name = FUNC
    # the names the invariants use for the function's locals, and the ROLE each plays (resolved on the AST when a local was renamed):
    roles = {"i": ("ivar", None), "j": ("counter", 2), "f": ("array", "uint16_t"), "bit_index": ("ivar", 3)}
    cases = (("si4", 0), ("si4", 1))

    def __init__(self, serv=1, hopp=2, einval=22):
        self.SERV, self.HOPP, self.EINVAL = serv, hopp, einval
        self.loops = {1: LoopSpec(self.inv1, self.assigns1), 2: LoopSpec(self.inv2, self.assigns2),
                      3: LoopSpec(self.inv3, self.assigns3)}

    # ------------------------------------------------------------------ parameters / pre-state
    def params(self, c):
        c.int("len")
        c.int("si4")
        freq = c.ptr("freq", count=S.NARFCN, single=False)
        ma = c.ptr("ma", count=c.a.len_v, single=False)
        hopping = c.ptr("hopping", count=S.MAX_HOPPING, single=False)
        hl = c.ptr("hopp_len")
        v = c.view_pre
        m = c.memo
        m["mask0"] = v.cell(freq, "mask")
        m["ma"] = v.cell(ma)
        m["hopping0"] = v.cell(hopping)
        m["hopp_len0"] = v.get(hl)
        m["L"] = c.a.len * 8
        m["n"] = S.rank(m["mask0"], self.SERV, S.NARFCN)        # |CA|
        if c.mode == "verify":
            c.inputs.update(mask=("array", m["mask0"], S.NARFCN), ma=("array_n", m["ma"], c.a.len))

    def requires(self, c):
        if c.mode != "verify":
            raise Unsupported("gsm48_decode_mobile_alloc contract is only used for verification (no caller is verified)")
        # the statement's quantifier is the domain: cell allocations of 0..64 channels (what a decoder does with a larger one - truncate,
        # reject - is free)
        return [("case_si4", c.a.si4 != 0 if c.case[1] else c.a.si4 == 0),
                ("cell_allocation_of_at_most_64_channels", S.rank(c.memo["mask0"], self.SERV, S.NARFCN) <= S.MAX_HOPPING)]

    def assigns(self, c):
        r = [c.region(c.a.hopping, count=S.MAX_HOPPING, whole=True), c.region(c.a.hopp_len)]
        if c.case[1]:
            r.append(c.region(c.a.freq, "mask", count=S.NARFCN, whole=True))
        return r

    # ------------------------------------------------------------------ loop 1: clear HOPP everywhere
    def assigns1(self, c, L):
        return [c.region(c.a.freq, "mask", count=S.NARFCN, whole=True)]

    def inv1(self, c, L, entry, cur):
        i = L.i
        mask, mask0 = cur.cell(c.a.freq, "mask"), c.memo["mask0"]
        H = self.HOPP

        def cleared_prefix(k):
            return z3.Implies(z3.And(0 <= k, k < S.NARFCN),
                              sel(mask, k) == z3.If(k < i, clr(sel(mask0, k), H), sel(mask0, k)))
        return [("i_range", z3.And(0 <= i, i <= S.NARFCN)),
                ("hopp_len_zero", cur.get(c.a.hopp_len) == 0),
                ("hopp_cleared_below_i", c.forall(cleared_prefix, "k", at=[i]))]

    # ------------------------------------------------------------------ loop 2: ordered list of the cell allocation
    def assigns2(self, c, L):
        return [c.region(L.f, whole=True)]

    def f_entry_ok(self, c, f, k, bound=None):
        """f[k] is the member of rank k of the cell allocation (order position below `bound` if given)"""
        mask0 = c.memo["mask0"]
        a = sel(f, k)
        conj = [0 <= a, a < S.NARFCN, S.has_bit(sel(mask0, a), self.SERV), S.rank(mask0, self.SERV, S.order_of(a)) == k]
        if bound is not None:
            conj.append(S.order_of(a) < bound)
        return z3.And(conj)

    def serv_unchanged(self, c, cur, k):
        """the SERV flag of freq[k] is the one of the pre-state (loop 1 only clears HOPP): instance at k"""
        if c.case[1]:
            c.instantiate(k)

    def inv2(self, c, L, entry, cur):
        i, j = L.i, L.j
        mask0, Lb = c.memo["mask0"], c.memo["L"]
        f = cur.cell(L.f)
        SERV = self.SERV
        # definition of rank at the current position; monotonicity up to the end of the table (lemma)
        c.lemma(S.rank_unfold(mask0, SERV, i - 1))
        c.lemma(mono_rank(mask0, SERV, i, S.NARFCN))
        if c.polarity == "assume":
            self.serv_unchanged(c, cur, i % S.NARFCN)

        def entries(k):
            return z3.Implies(z3.And(0 <= k, k < j), self.f_entry_ok(c, f, k, bound=i - 1))
        return [("i_range", z3.And(1 <= i, i <= S.NARFCN + 1)),
                ("j_is_rank", j == S.rank(mask0, SERV, i - 1)),
                ("j_within_list_capacity", z3.And(0 <= j, j <= Lb)),
                ("hopp_len_zero", cur.get(c.a.hopp_len) == 0),
                ("f_holds_first_j_members", c.forall(entries, "k"))]

    # ------------------------------------------------------------------ loop 3: walk the bitmap
    def assigns3(self, c, L):
        r = [c.region(c.a.hopping, count=S.MAX_HOPPING, whole=True), c.region(c.a.hopp_len)]
        if c.case[1]:
            r.append(c.region(c.a.freq, "mask", count=S.NARFCN, whole=True))
        return r

    def inv3(self, c, L, entry, cur):
        i, j = L.i, L.j
        m = c.memo
        mask0, ma, ln, Lb, n = m["mask0"], m["ma"], c.a.len, m["L"], m["n"]
        f = cur.cell(L.f)
        hop = cur.cell(c.a.hopping)
        h = cur.get(c.a.hopp_len)
        SERV, HOPP = self.SERV, self.HOPP
        bit = lambda x: S.bit(ma, ln, x)
        hr = lambda x: S.hrank(ma, ln, x)
        c.lemma(S.hrank_unfold(ma, ln, i))
        c.lemma(S.hrank_unfold(ma, ln, i - 1))
        if c.polarity == "assume":
            c.instantiate(i)

        def f_ok(k):
            return z3.Implies(z3.And(0 <= k, k < j), self.f_entry_ok(c, f, k))

        def not_truncated(x):
            return z3.Implies(z3.And(0 <= x, x < i, bit(x)), x < j)

        def decoded(x):
            c.lemma(S.hrank_unfold(ma, ln, x))
            c.lemma(mono_hrank(ma, ln, x + 1, i - 1))
            c.lemma(mono_hrank(ma, ln, x + 1, i))
            return z3.Implies(z3.And(0 <= x, x < i, bit(x)), sel(hop, hr(x)) == sel(f, x))
        inv = [("j_is_min_of_CA_size_and_bitmap_size", z3.Or(z3.And(j == n, j < Lb), z3.And(j == Lb, Lb <= n))),
               ("f_holds_first_j_members", c.forall(f_ok, "k")),
               ("i_range", z3.And(0 <= i, i <= Lb)),
               ("h_counts_set_bits", z3.And(h == hr(i), 0 <= h, h <= i)),
               ("no_set_bit_beyond_list_yet", c.forall(not_truncated, "x")),
               ("hopping_is_decode_of_bits_below_i", c.forall(decoded, "x"))]
        if c.case[1]:
            mask = cur.cell(c.a.freq, "mask")
            if c.polarity == "assume":
                w = c.skolem_fn("src")
                m["w"] = w
                wit = w
            else:
                w_old = m.get("w")
                # exists-introduction: the bit index that set the flag of ARFCN a
                if w_old is None:
                    wit = lambda a: z3.IntVal(0)
                else:
                    wit = lambda a: z3.If(z3.And(bit(i - 1), sel(f, i - 1) == a), i - 1, w_old(a))

            def others_unchanged(a):
                return z3.Implies(z3.And(0 <= a, a < S.NARFCN), clr(sel(mask, a), HOPP) == clr(sel(mask0, a), HOPP))

            def flagged(x):
                return z3.Implies(z3.And(0 <= x, x < i, bit(x)), S.has_bit(sel(mask, sel(f, x)), HOPP))

            def only_decoded_flagged(a):
                wa = wit(a)
                return z3.Implies(z3.And(0 <= a, a < S.NARFCN, S.has_bit(sel(mask, a), HOPP)),
                                  z3.And(0 <= wa, wa < i, bit(wa), sel(f, wa) == a))
            inv += [("other_flags_unchanged", c.forall(others_unchanged, "a")),
                    ("decoded_channels_flagged", c.forall(flagged, "x")),
                    ("only_decoded_channels_flagged", c.forall(only_decoded_flagged, "a"))]
        return inv

    # ------------------------------------------------------------------ post-condition (from the statement)
    def ensures(self, c, old, new, ret):
        m = c.memo
        mask0, ma, ln, Lb, n = m["mask0"], m["ma"], c.a.len, m["L"], m["n"]
        SERV, HOPP = self.SERV, self.HOPP
        # return value: an error (negative) exactly for bitmaps longer than 8 octets.  The statement is silent about the value returned on
        # success and about which negative value reports the error; both callers in the tree (sysinfo.c: gsm48_decode_sysinfo1..,
        # gsm48_rr.c: gsm48_rr_render_ma / channel description) ignore the result.  [was: == -EINVAL / == 0]
        posts = [("longer_than_8_octets_rejected", (ln > S.MAX_OCTETS) == (ret < 0)),
                 ("otherwise_returns_non_negative", z3.Implies(ln <= S.MAX_OCTETS, ret >= 0))]
        hop = new.cell(c.a.hopping)
        h = new.get(c.a.hopp_len)
        posts.append(("rejected_leaves_outputs_untouched",
                      z3.Implies(ln > S.MAX_OCTETS, z3.And(hop == m["hopping0"], h == m["hopp_len0"],
                                                           new.cell(c.a.freq, "mask") == mask0))))
        try:
            T = c.ret_locals.i           # where the bitmap walk stopped
        except Unsupported:
            try:
                T = c.ret_locals.bit_index       # renamed: the induction variable of loop 3 (Contract.roles)
            except Unsupported:
                return posts             # early return: the loops were not reached
        bit = lambda x: S.bit(ma, ln, x)
        hr = lambda x: S.hrank(ma, ln, x)
        c.instantiate(T)
        c.lemma(S.hrank_unfold(ma, ln, T))

        def within_ca(x):
            return z3.Implies(z3.And(0 <= x, x < T, bit(x)), x < n)

        def entry_is_flagged_member(x):
            a = sel(hop, hr(x))
            return z3.Implies(z3.And(0 <= x, x < T, bit(x)),
                              z3.And(0 <= a, a < S.NARFCN, S.has_bit(sel(mask0, a), SERV), S.rank(mask0, SERV, S.order_of(a)) == x))
        posts += [("stops_at_end_or_first_bit_beyond_CA", z3.Or(T == Lb, z3.And(0 <= T, T < Lb, bit(T), T >= n))),
                  ("all_used_bits_within_CA", c.forall(within_ca, "x")),
                  ("count_is_number_of_used_bits", h == hr(T)),
                  ("at_most_64_entries", z3.And(0 <= h, h <= S.MAX_HOPPING)),
                  ("empty_bitmap_empty_list", z3.Implies(ln == 0, h == 0)),
                  ("entry_k_is_CA_member_of_the_kth_set_bit", c.forall(entry_is_flagged_member, "x"))]
        mask = new.cell(c.a.freq, "mask")
        if c.case[1]:
            w = m.get("w")

            def others_unchanged(a):
                return z3.Implies(z3.And(0 <= a, a < S.NARFCN), clr(sel(mask, a), HOPP) == clr(sel(mask0, a), HOPP))

            def flagged(x):
                return z3.Implies(z3.And(0 <= x, x < T, bit(x)), S.has_bit(sel(mask, sel(hop, hr(x))), HOPP))

            def only_decoded(a):
                wa = w(a) if w is not None else z3.IntVal(0)
                c.instantiate(wa)          # the bit index that flagged a: hopping[hrank(wa)] == f[wa] is needed there
                return z3.Implies(z3.And(0 <= a, a < S.NARFCN, S.has_bit(sel(mask, a), HOPP)),
                                  z3.And(0 <= wa, wa < T, bit(wa), sel(hop, hr(wa)) == a))
            posts += [("si4.other_flags_unchanged", c.forall(others_unchanged, "a")),
                      ("si4.decoded_channels_get_HOPP", c.forall(flagged, "x")),
                      ("si4.only_decoded_channels_have_HOPP", c.forall(only_decoded, "a"))]
        else:
            posts.append(("not_si4.freq_unchanged", mask == mask0))
        return posts

#!/bin/sh
# Offline self-test of the tooling the checks need. Builds nothing persistent.
set -e
cd "$(dirname "$0")"
python3-vt - <<'PY'
import z3, sys
s = z3.Solver(); x = z3.Int('x'); s.add(x > 1, x < 3)
assert s.check() == z3.sat and s.model()[x].as_long() == 2
print("z3", z3.get_version_string(), "ok")
PY
/usr/bin/cvc5 --version | head -1
clang --version | head -1
mkdir -p evidence replay
echo setup ok
